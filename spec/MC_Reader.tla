----------------------------- MODULE MC_Reader -----------------------------
(***************************************************************************)
(* Exhaustive check of the classifier of Reader.tla: every token-class     *)
(* sequence up to length N (IOEnv.N, default 6) is one state.              *)
(*   - the pushdown recogniser agrees with the BNF predicate IsDatum;      *)
(*   - prefix consistency: every proper token-boundary prefix of a         *)
(*     complete datum is Incomplete, a complete datum is never Incomplete, *)
(*     Datum(k) consumes exactly k tokens and nothing after them matters;  *)
(*   - Incomplete is witnessed by a completion, Error/Unspecified can      *)
(*     never be completed.                                                 *)
(***************************************************************************)
EXTENDS Reader, IOUtils, TLC

N == IF "N" \in DOMAIN IOEnv THEN atoi(IOEnv.N) ELSE 6

VARIABLE toks
Init == toks = <<>>
Next == Len(toks) < N /\ \E t \in Classes : toks' = Append(toks, t)
Spec == Init /\ [][Next]_toks

Prefix(j) == SubSeq(toks, 1, j)
C == Classify(toks)

TypeOK == C.c \in {"Datum", "Incomplete", "Error", "Unspecified"} /\ (C.c = "Datum") = (C.k > 0)

\* the recogniser and the grammar define the same complete data
AgreesWithGrammar == (C = DatumOf(Len(toks))) <=> IsDatum(toks)

\* Datum(k): the first k tokens are a datum, no shorter prefix is, and the tokens after
\* them have no influence
ConsumesExactlyK ==
  C.c = "Datum" => /\ C.k \in 1..Len(toks)
                   /\ IsDatum(Prefix(C.k))
                   /\ \A j \in 0..(C.k - 1) : ~IsDatum(Prefix(j))
                   /\ Classify(Prefix(C.k)) = C

\* every proper prefix (cut at a token boundary) of a complete datum is Incomplete
PrefixesIncomplete ==
  IsDatum(toks) => \A j \in 0..(Len(toks) - 1) : Classify(Prefix(j)) = Incomplete

\* a complete datum (alone or followed by more tokens) is never reported incomplete
CompleteNeverIncomplete ==
  C.c = "Incomplete" => \A j \in 0..Len(toks) : ~IsDatum(Prefix(j))

\* Incomplete means: a proper prefix of a well-formed datum (the witness is computed)
IncompleteIsWitnessed ==
  C.c = "Incomplete" =>
     LET ext == toks \o Completion(Scan(toks).st) IN
     /\ Len(ext) > Len(toks)
     /\ IsDatum(ext)
     /\ Classify(ext) = DatumOf(Len(ext))

\* how the classification may change when one more token arrives
Extension ==
  Len(toks) > 0 =>
     LET c0 == Classify(Prefix(Len(toks) - 1)) IN
     CASE c0.c = "Datum"       -> C = c0
       [] c0.c = "Error"       -> C = c0
       [] c0.c = "Unspecified" -> C.c \in {"Unspecified", "Error"}
       [] OTHER                -> C.c = "Datum" => C.k = Len(toks)

\* the language of data is prefix free: a datum has no proper prefix that is a datum
PrefixFree == IsDatum(toks) => \A j \in 0..(Len(toks) - 1) : ~IsDatum(Prefix(j))

\* hand-stated cases: the specification's own regression
T(s) == Classify(s)
ASSUME T(<<>>) = Incomplete
ASSUME T(<<"ATOM">>) = DatumOf(1)
ASSUME T(<<"ATOM", "RP">>) = DatumOf(1)
ASSUME T(<<"RP">>) = Error
ASSUME T(<<"DOT">>) = Error
ASSUME T(<<"PFX">>) = Incomplete
ASSUME T(<<"PFX", "RP">>) = Error
ASSUME T(<<"PFX", "PFX", "ATOM", "ATOM">>) = DatumOf(3)
ASSUME T(<<"LP", "RP">>) = DatumOf(2)
ASSUME T(<<"LP", "DOT">>) = Unspecified
ASSUME T(<<"LP", "DOT", "ATOM", "RP">>) = Error
ASSUME T(<<"LP", "ATOM", "DOT">>) = Incomplete
ASSUME T(<<"LP", "ATOM", "DOT", "ATOM">>) = Incomplete
ASSUME T(<<"LP", "ATOM", "DOT", "ATOM", "RP">>) = DatumOf(5)
ASSUME T(<<"LP", "ATOM", "DOT", "RP">>) = Error
ASSUME T(<<"LP", "ATOM", "DOT", "ATOM", "ATOM">>) = Unspecified
ASSUME T(<<"LP", "ATOM", "DOT", "ATOM", "ATOM", "RP">>) = Error
ASSUME T(<<"LP", "ATOM", "DOT", "DOT">>) = Unspecified
ASSUME T(<<"LP", "ATOM", "RB">>) = Unspecified
ASSUME T(<<"LB", "ATOM", "RB">>) = DatumOf(3)
ASSUME T(<<"LB", "LP", "RP", "DOT", "VEC", "RP", "RB">>) = DatumOf(7)
ASSUME T(<<"VEC", "ATOM", "DOT">>) = Unspecified
ASSUME T(<<"VEC", "ATOM", "DOT", "ATOM", "RP">>) = Error
ASSUME T(<<"VEC", "RB">>) = Unspecified
ASSUME T(<<"VEC", "PFX", "LP">>) = Incomplete
ASSUME T(<<"LP", "PFX", "RP">>) = Error
ASSUME T(<<"LP", "LP", "PFX", "RP">>) = Unspecified
ASSUME Split(<<"ATOM", "LP", "RP", "PFX", "ATOM", "RP">>, 0) = <<1, 3, 5>>
ASSUME Rest(<<"ATOM", "LP", "RP", "PFX", "ATOM", "RP">>) = "Error"
ASSUME Rest(<<"ATOM", "LP">>) = "Incomplete"
ASSUME Rest(<<"ATOM", "ATOM">>) = "End"
=============================================================================
